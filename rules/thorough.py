"""Thorough tier = quick + checker self-validation + informational second configuration.

E3 (kill matrix): every registered mutant (reverse patches of the fix: commits, sub-agent seeds, ported seeds, hand-written rule
mutants) that names a rule of this property is applied to a scratch copy of /repo's *current working tree* (outside /repo and
/verif, removed afterwards), facts are re-extracted, and the rule must fire. A patch that no longer applies is `skipped`; a
mutant that applies but is not killed is reported as SELFTEST-MISS in the output and the evidence - neither ever produces a
VIOLATION or a non-zero exit code: only violations on /repo's own tree do.
Benign set: behaviour-preserving refactorings (mutants/benign/*.diff) must leave the property silent; a report on one of them
is printed as SELFTEST-FALSE-ALARM (again: evidence only).
E5: the same rules are run on the `async-io-rio` configuration (not part of the pinned build) - informational.
"""
import json
import os
import shutil
import subprocess
import tempfile
import time

import engine

VERIF = engine.VERIF
REG = os.path.join(VERIF, 'mutants', 'registry.json')


def load_registry():
    if not os.path.exists(REG):
        return []
    with open(REG) as f:
        return json.load(f)['mutants']


def scratch_copy():
    d = tempfile.mkdtemp(prefix='pearl-verif-scratch-')
    subprocess.run(['rsync', '-a', '--exclude', 'target', '--exclude', '.git', engine.REPO + '/', d + '/'], check=True)
    return d


def apply_patch(d, patch):
    r = subprocess.run(['git', 'apply', '--whitespace=nowarn', patch], cwd=d, stdout=subprocess.PIPE, stderr=subprocess.STDOUT, text=True)
    if r.returncode == 0:
        return True
    r = subprocess.run(['patch', '-p1', '-s', '-f', '--no-backup-if-mismatch', '-i', patch], cwd=d, stdout=subprocess.PIPE, stderr=subprocess.STDOUT, text=True)
    return r.returncode == 0


def control_fixture(prop):
    """zero-expected rules run against fixtures/control, where they must fire (and stay silent on the negative twin)"""
    if prop != 'C08':
        return None
    try:
        prog = engine.extract(repo=os.path.join(VERIF, 'fixtures', 'control'), target=os.path.join(engine.CACHE, 'target-control'), tag='control', crate='control')
    except Exception as e:
        return {'error': str(e)[-300:]}
    import importlib
    c08 = importlib.import_module('props.c08')
    ctx = engine.Ctx(prog, 'C08')
    c08.d3(ctx, 'C08.D3')
    fired = sorted(i.key for i in ctx.insts if not i.ok)
    return {'C08.D3': {'fired_on': fired, 'positive_example_detected': any('std_guard_across_await' in k for k in fired),
                       'negative_twin_silent': not any('dropped_before_await' in k for k in fired)}}


E4_PRIMS = None
import threading
RULES_LOCK = threading.Lock()


def cross_extraction(prop):
    """E4: second, independent list of the raw OS primitives' call sites from a HIR lint (clippy disallowed-methods with
    clippy/clippy.toml) compared with the MIR extraction. A disagreement is an engine problem (reported, never a verdict)."""
    if prop not in ('C07', 'C12'):
        return None
    import re
    d = None
    try:
        d = scratch_copy()
        shutil.copy(os.path.join(VERIF, 'clippy', 'clippy.toml'), os.path.join(d, 'clippy.toml'))
        env = dict(os.environ)
        env.update({'CARGO_NET_OFFLINE': 'true', 'CARGO_TARGET_DIR': os.path.join(engine.CACHE, 'target-clippy')})
        r = subprocess.run('cargo +nightly clippy --offline --lib -- -W clippy::disallowed_methods', shell=True, cwd=d, env=env,
                           stdout=subprocess.PIPE, stderr=subprocess.STDOUT, text=True)
        if r.returncode != 0:
            return {'error': r.stdout[-300:]}
        sites = set()
        lines = r.stdout.splitlines()
        for i, l in enumerate(lines):
            m = re.search(r'use of a disallowed method `([^`]+)`', l)
            if m:
                for l2 in lines[i + 1:i + 4]:
                    m2 = re.search(r'--> (src/[^:]+):(\d+):', l2)
                    if m2:
                        sites.add((m.group(1), m2.group(1), int(m2.group(2))))
                        break
        prims_list = []
        for l in open(os.path.join(VERIF, 'clippy', 'clippy.toml')):
            prims_list += re.findall(r'"([a-z_:A-Z]+)"', l)
        prog = engine.extract(repo=d, tag='e4')
        import prims as P
        mir = set()
        for f in prog.fns.values():
            for c in f.calls:
                if c.name == 'poll':
                    continue
                b = P.base(c.target)
                if b in prims_list or c.path in prims_list:
                    mir.add((b if b in prims_list else c.path, f.file, c.t.get('fl', c.line)))
        return {'clippy_sites': len(sites), 'mir_sites': len(mir), 'agree': sites == mir,
                'only_clippy': sorted(sites - mir)[:10], 'only_mir': sorted(mir - sites)[:10]}
    except Exception as e:
        return {'error': str(e)[-300:]}
    finally:
        if d:
            shutil.rmtree(d, ignore_errors=True)


def run(prop, ev):
    t0 = time.time()
    lines = []
    reg = load_registry()
    mine = [m for m in reg if any(r.startswith(prop + '.') for r in m.get('expects', []))]
    benign = [m for m in reg if m.get('kind') == 'benign']
    matrix = []
    base = None
    try:
        base = scratch_copy()
        import queue
        from concurrent.futures import ThreadPoolExecutor
        nslots = int(os.environ.get('VERIF_SELFTEST_JOBS', '4'))
        slots = queue.Queue()
        for i in range(nslots):
            slots.put(i)

        def one(m):
            patch = os.path.join(VERIF, m['patch'])
            d = tempfile.mkdtemp(prefix='pearl-verif-mut-')
            slot = slots.get()
            try:
                subprocess.run(['rsync', '-a', base + '/', d + '/'], check=True)
                if not apply_patch(d, patch):
                    return {'mutant': m['id'], 'kind': m.get('kind'), 'status': 'skipped (patch does not apply to the current tree)'}, None
                try:
                    prog = engine.extract_scratch(d, target=os.path.join(engine.CACHE, 'target-mut-%d' % slot))
                except engine.EngineError:
                    return {'mutant': m['id'], 'kind': m.get('kind'), 'status': 'skipped (does not compile on the current tree)'}, None
                with RULES_LOCK:    # rule modules keep module-level scratch state: evaluate one program at a time
                    code, rlines, mev, ctx = engine.run_property(prop, 'thorough', prog=prog, write=False)
                import re as _re
                # a rule that lost its anchor fails closed (a VIOLATION of ./check): that counts as fired here too
                lost = {m2.group(1) for ln in rlines for m2 in [_re.search(r'rule (C\d+\.[A-Za-z0-9]+):', ln)] if m2}
                fired = sorted({i.rule for i in ctx.insts if not i.ok} | lost)
                if m.get('kind') == 'benign':
                    if fired:
                        return ({'mutant': m['id'], 'kind': 'benign', 'status': 'FALSE-ALARM', 'fired': fired},
                                'SELFTEST-FALSE-ALARM property=%s benign refactoring %s makes %s fire' % (prop, m['id'], fired))
                    return {'mutant': m['id'], 'kind': 'benign', 'status': 'silent'}, None
                want = [r for r in m['expects'] if r.startswith(prop + '.')]
                killed = [r for r in want if r in fired]
                if killed:
                    return {'mutant': m['id'], 'kind': m.get('kind'), 'status': 'killed', 'by': killed, 'also_fired': [r for r in fired if r not in killed]}, None
                return ({'mutant': m['id'], 'kind': m.get('kind'), 'status': 'MISSED', 'expected': want, 'fired': fired},
                        'SELFTEST-MISS property=%s mutant %s expected %s, fired %s' % (prop, m['id'], want, fired))
            finally:
                slots.put(slot)
                shutil.rmtree(d, ignore_errors=True)

        with ThreadPoolExecutor(nslots) as ex:
            for row, line in ex.map(one, mine + benign):
                matrix.append(row)
                if line:
                    lines.append(line)
    finally:
        if base:
            shutil.rmtree(base, ignore_errors=True)
    # informational: async-io-rio configuration
    rio = None
    try:
        prog = engine.extract(features='async-io-rio', target=os.path.join(engine.CACHE, 'target-rio'), tag='rio')
        code, _, rev, rctx = engine.run_property(prop, 'thorough', prog=prog, write=False)
        rio = {'functions': len(prog.fns), 'instances': len(rctx.insts), 'holding': sum(1 for i in rctx.insts if i.ok),
               'not_holding (unarmed, informational)': sorted({'%s %s' % (i.rule, i.key) for i in rctx.insts if not i.ok})[:20]}
    except Exception as e:  # the feature build is not part of the pinned configuration: never fatal
        rio = {'error': str(e)[-300:]}
    control = control_fixture(prop)
    e4 = cross_extraction(prop)
    cov = ev['coverage']
    cov['control_fixture'] = control
    cov['cross_extraction_clippy'] = e4
    if e4 and e4.get('agree') is False:
        lines.append('E4-DISAGREE property=%s clippy/MIR call-site lists differ: only clippy %s, only MIR %s' % (prop, e4['only_clippy'], e4['only_mir']))
    cov['selftest'] = {
        'mutants_for_this_property': len(mine), 'killed': sum(1 for x in matrix if x['status'] == 'killed'),
        'missed': sum(1 for x in matrix if x['status'] == 'MISSED'), 'skipped': sum(1 for x in matrix if x['status'].startswith('skipped')),
        'benign_refactorings': len(benign), 'benign_silent': sum(1 for x in matrix if x['status'] == 'silent'),
        'benign_false_alarms': sum(1 for x in matrix if x['status'] == 'FALSE-ALARM'),
        'matrix': matrix,
    }
    cov['async_io_rio_configuration'] = rio
    cov['evaluations'] = cov.get('evaluations', 0) + len(matrix)
    ev['tier'] = 'thorough'
    ev['wall_s'] = round(ev.get('wall_s', 0) + time.time() - t0, 3)
    lines.append('%s thorough self-test: %d/%d mutants killed, %d skipped, %d benign refactorings silent of %d' % (
        prop, cov['selftest']['killed'], len(mine), cov['selftest']['skipped'], cov['selftest']['benign_silent'], len(benign)))
    return 0, lines
