#!/bin/bash
# One-time setup after a fresh restore (offline): build the fact extractor and pre-build pearl's dependencies
# for the nightly check configuration so that every quick check afterwards takes a few seconds.
set -e
cd "$(dirname "$0")"
export CARGO_NET_OFFLINE=true
(cd driver && cargo build --offline 2>&1 | tail -3)
python3 - <<'PY'
import sys, os
sys.path.insert(0, os.path.join(os.getcwd(), 'rules'))
import engine
p = engine.extract()
print('setup: extracted %d bodies (%d coroutines)' % (len(p.fns), sum(1 for f in p.fns.values() if f.is_coroutine)))
PY
