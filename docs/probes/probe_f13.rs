#![allow(dead_code)]
use bytes::Bytes;
use pearl::BlobRecordTimestamp;
use std::{path::Path, sync::Arc, time::{Duration, Instant, SystemTime}};
use tokio::{sync::Semaphore, time::sleep};
mod common;
use common::KeyTest;

const MIN_DEFER: Duration = Duration::from_millis(200);
const MAX_DEFER: Duration = Duration::from_millis(1000);

async fn wait_until(limit: Duration, mut cond: impl FnMut() -> bool) -> bool {
    let start = Instant::now();
    while start.elapsed() < limit {
        if cond() { return true; }
        sleep(Duration::from_millis(50)).await;
    }
    cond()
}
fn signature(path: &Path) -> Option<(SystemTime, u64)> {
    let meta = std::fs::metadata(path).ok()?;
    if !meta.is_file() { return None; }
    Some((meta.modified().ok()?, meta.len()))
}
async fn write(storage: &pearl::Storage<KeyTest>, key: u32) {
    storage.write(KeyTest::new(key), Bytes::from(vec![3u8; 64]), BlobRecordTimestamp::now()).await.unwrap();
}

#[tokio::test(flavor = "multi_thread", worker_threads = 4)]
async fn probe_f13_deferred_dump_due_while_task_busy() {
    let path = common::init("probe_f13");
    let _ = std::fs::remove_dir_all(&path);
    let dump_sem = Arc::new(Semaphore::new(1));
    let sem = dump_sem.clone();
    let storage = Arc::new(common::create_custom_test_storage(&path, move |b| {
        b.max_blob_size(1_000_000).max_data_in_blob(1000).set_dump_sem(sem).set_deferred_index_dump_times(MIN_DEFER, MAX_DEFER)
    }).await.unwrap());
    let index_0 = path.join("test.0.index");
    let index_1 = path.join("test.1.index");
    for key in 0..5 { write(&storage, key).await; }
    storage.try_close_active_blob().await.unwrap();
    assert!(wait_until(Duration::from_secs(10), || index_0.is_file()).await);
    for key in 10..15 { write(&storage, key).await; }
    storage.try_close_active_blob().await.unwrap();
    assert!(wait_until(Duration::from_secs(10), || index_1.is_file()).await);
    write(&storage, 100).await;
    sleep(Duration::from_millis(300)).await;
    let sig0 = signature(&index_0).unwrap();

    // 1. explicit dump task starts and blocks at blob 0 (we hold the only permit)
    let permit = dump_sem.clone().acquire_owned().await.unwrap();
    storage.free_excess_resources().await;
    sleep(Duration::from_millis(300)).await;
    // 2. delete in closed blob 0 queues behind the task's locks
    let s2 = storage.clone();
    let d1 = tokio::spawn(async move { s2.delete(KeyTest::new(0), BlobRecordTimestamp::now(), true).await.unwrap() });
    sleep(Duration::from_millis(100)).await;
    // 3. let the task pass blob 0 only
    drop(permit);
    let permit = dump_sem.clone().acquire_owned().await.unwrap();
    let deleted = tokio::time::timeout(Duration::from_secs(5), d1).await.expect("delete finished while the task waits at blob 1").unwrap();
    assert_eq!(deleted, 1);
    // 4. deferred dump becomes due while the task is still busy
    sleep(MIN_DEFER + Duration::from_millis(500)).await;
    // 5. task finishes
    drop(permit);
    // 6. the deferred dump (blob 0 now has a deletion record in memory) must still happen
    let done = wait_until(MAX_DEFER + Duration::from_secs(4), || signature(&index_0).map_or(false, |s| s != sig0)).await;
    assert!(done, "requested deferred index dump of blob 0 never completed");
    let _ = std::fs::remove_dir_all(&path);
}
