//! Probe F17 (unchanged tree): a delete in an already closed blob followed by a clean `close()` leaves that blob's
//! index file stale: the tools reject / misreport a file pair the storage produced and closed cleanly.
mod common;
use common::KeyTest;
use pearl::{BlobRecordTimestamp, tools};
use std::time::Duration;

#[tokio::test(flavor = "multi_thread", worker_threads = 4)]
async fn index_of_a_closed_blob_is_current_after_clean_close() {
    let path = common::init("probe_f17");
    let storage = common::create_custom_test_storage(&path, |b| b.set_deferred_index_dump_times(Duration::from_secs(30), Duration::from_secs(60))).await.unwrap();
    for i in 0..5u32 {
        storage.write(KeyTest::new(i), vec![i as u8; 64].into(), BlobRecordTimestamp::now()).await.unwrap();
    }
    // close the active blob: it becomes a closed blob, its index is dumped in the background
    storage.try_close_active_blob().await.unwrap();
    let index_path = path.join("test.0.index");
    let blob_path = path.join("test.0.blob");
    for _ in 0..200 {
        if index_path.exists() { break; }
        tokio::time::sleep(Duration::from_millis(50)).await;
    }
    assert!(index_path.exists(), "index of the closed blob was dumped");
    tokio::time::sleep(Duration::from_millis(300)).await;
    let ip = index_path.clone();
    let before = tokio::task::spawn_blocking(move || {
        tools::validate_index::<KeyTest>(&ip).expect("index valid before the delete");
        tools::read_index_sync(&ip).unwrap().values().map(|v| v.len()).sum::<usize>()
    }).await.unwrap();
    assert_eq!(before, 5);
    // a delete of a key that lives in the closed blob appends a deletion record to that blob
    storage.delete(KeyTest::new(2), BlobRecordTimestamp::now(), false).await.unwrap();
    // clean shutdown
    storage.close().await.unwrap();
    let blob_len = std::fs::metadata(&blob_path).unwrap().len();
    println!("blob length after close: {}", blob_len);
    let ip = index_path.clone();
    let (v, after) = tokio::task::spawn_blocking(move || {
        (tools::validate_index::<KeyTest>(&ip), tools::read_index_sync(&ip).map(|m| m.values().map(|v| v.len()).sum::<usize>()))
    }).await.unwrap();
    println!("validate_index after clean close: {:?}", v.as_ref().map_err(|e| e.to_string()));
    println!("headers reported by read_index after clean close: {:?} (the blob holds 6 records)", after.as_ref().map_err(|e| e.to_string()));
    assert!(v.is_ok(), "validate_index rejects the index of a cleanly closed storage: {:?}", v.err().map(|e| e.to_string()));
    assert_eq!(after.unwrap(), 6, "read_index must report every header present in the blob");
    let _ = std::fs::remove_dir_all(&path);
}
