//! Probe F16 (UNCHANGED tree): `File::fsyncdata` records as `synced_size` the `size` it captured before
//! `sync_all()`. `size` is advanced when an append RESERVES its range (`size.fetch_add(len)`), i.e. before
//! the bytes are written. A sync that starts while an append is between its reservation and its pwrite
//! therefore marks bytes as synced that reach the file only AFTER the fsync returned. When that append is
//! acknowledged, the blob reports 0 dirty bytes, no background sync is requested, and the acknowledged
//! bytes stay un-synced although they exceed `max_dirty_bytes_before_sync`.
//!
//! The test asserts the CORRECT behaviour (a sync of the blob follows W2's bytes), so it FAILS on the
//! unchanged tree. Place it as tests/probe_f16.rs.
//!
//! Technique: the test binary defines `pwrite64` and `fsync` itself (symbols of the executable win over
//! libc's), records the ordered trace of writes and syncs per file, and can hold one chosen blob write
//! inside "the kernel". The background worker is parked inside a user supplied `ActiveBlobPred`
//! (force_update_active_blob request whose predicate blocks and then answers `false`), so that the
//! TryFsyncData request of W1 is served only after W2 has reserved its range.
use std::sync::atomic::{AtomicBool, AtomicUsize, Ordering};
use std::sync::{Condvar, Mutex};
use std::time::{Duration, Instant};

use bytes::Bytes;
use pearl::{ArrayKey, BlobRecordTimestamp, Builder, Storage};

#[derive(Debug, Clone, PartialEq)]
enum Ev {
    Mark(String),
    WriteStart { path: String, offset: i64, len: usize },
    WriteDone { path: String, offset: i64, len: usize },
    SyncStart { path: String },
    SyncDone { path: String },
}

static TRACE: Mutex<Vec<Ev>> = Mutex::new(Vec::new());

fn push(ev: Ev) -> usize {
    let mut t = TRACE.lock().unwrap();
    t.push(ev);
    t.len()
}

fn mark(s: &str) -> usize {
    push(Ev::Mark(s.to_string()))
}

/// Gate: closed -> whoever waits on it blocks until it is opened
struct Gate {
    open: Mutex<bool>,
    cv: Condvar,
}

impl Gate {
    const fn new() -> Self {
        Self { open: Mutex::new(false), cv: Condvar::new() }
    }
    fn wait(&self) {
        let mut open = self.open.lock().unwrap();
        while !*open {
            open = self.cv.wait(open).unwrap();
        }
    }
    fn open(&self) {
        *self.open.lock().unwrap() = true;
        self.cv.notify_all();
    }
}

/// Hold the next write into a blob file, which is at least this long (0 - disarmed)
static HOLD_BLOB_WRITE_MIN_LEN: AtomicUsize = AtomicUsize::new(0);
static WRITE_HELD: AtomicBool = AtomicBool::new(false);
static WRITE_GATE: Gate = Gate::new();

static PRED_ENTERED: AtomicBool = AtomicBool::new(false);
static PRED_GATE: Gate = Gate::new();

fn fd_path(fd: libc::c_int) -> String {
    std::fs::read_link(format!("/proc/self/fd/{}", fd))
        .map(|p| {
            p.file_name()
                .map(|n| n.to_string_lossy().into_owned())
                .unwrap_or_default()
        })
        .unwrap_or_default()
}

#[no_mangle]
pub unsafe extern "C" fn fsync(fd: libc::c_int) -> libc::c_int {
    let path = fd_path(fd);
    push(Ev::SyncStart { path: path.clone() });
    let res = libc::syscall(libc::SYS_fsync, fd) as libc::c_int;
    push(Ev::SyncDone { path });
    res
}

#[no_mangle]
pub unsafe extern "C" fn pwrite64(
    fd: libc::c_int,
    buf: *const libc::c_void,
    count: libc::size_t,
    offset: libc::off64_t,
) -> libc::ssize_t {
    let path = fd_path(fd);
    push(Ev::WriteStart { path: path.clone(), offset, len: count });
    let min_len = HOLD_BLOB_WRITE_MIN_LEN.load(Ordering::SeqCst);
    if min_len != 0
        && count >= min_len
        && path.ends_with(".blob")
        && HOLD_BLOB_WRITE_MIN_LEN
            .compare_exchange(min_len, 0, Ordering::SeqCst, Ordering::SeqCst)
            .is_ok()
    {
        WRITE_HELD.store(true, Ordering::SeqCst);
        WRITE_GATE.wait();
    }
    let res = libc::syscall(libc::SYS_pwrite64, fd, buf, count, offset) as libc::ssize_t;
    push(Ev::WriteDone { path, offset, len: count });
    res
}

/// Parks the background worker: it is called by the worker while it handles ForceUpdateActiveBlob
fn park_worker() -> bool {
    PRED_ENTERED.store(true, Ordering::SeqCst);
    PRED_GATE.wait();
    false // no blob update
}

type K = ArrayKey<4>;

fn key(i: u32) -> K {
    K::from(i.to_be_bytes().to_vec())
}

async fn wait_flag(flag: &AtomicBool, what: &str) {
    let start = Instant::now();
    while !flag.load(Ordering::SeqCst) {
        assert!(start.elapsed() < Duration::from_secs(10), "timeout: {}", what);
        tokio::time::sleep(Duration::from_millis(10)).await;
    }
}

/// Waits until a finished sync of a blob file appears in the trace at or after position `from`
async fn wait_blob_sync_done_after(from: usize, timeout: Duration) -> bool {
    let start = Instant::now();
    loop {
        {
            let trace = TRACE.lock().unwrap();
            if trace[from..]
                .iter()
                .any(|e| matches!(e, Ev::SyncDone { path } if path.ends_with(".blob")))
            {
                return true;
            }
        }
        if start.elapsed() > timeout {
            return false;
        }
        tokio::time::sleep(Duration::from_millis(20)).await;
    }
}

fn print_trace() {
    println!("---------------- ordered trace of writes and syncs ----------------");
    for (i, e) in TRACE.lock().unwrap().iter().enumerate() {
        println!("{:3}: {:?}", i, e);
    }
    println!("--------------------------------------------------------------------");
}

const LIMIT: u64 = 1000;
const DATA_LEN: usize = 2000;

#[tokio::test(flavor = "multi_thread", worker_threads = 6)]
async fn write_overlapped_by_background_sync_is_synced_afterwards() {
    let dir = std::env::temp_dir().join(format!("probe_f16_{}", std::process::id()));
    let _ = std::fs::remove_dir_all(&dir);
    let mut storage: Storage<K> = Builder::new()
        .work_dir(&dir)
        .blob_file_name_prefix("test")
        .max_blob_size(100_000_000)
        .max_data_in_blob(100_000)
        .set_max_dirty_bytes_before_sync(LIMIT)
        .allow_duplicates()
        .build()
        .unwrap();
    storage.init().await.unwrap();
    let storage = std::sync::Arc::new(storage);

    // Park the worker inside the predicate: requests sent from now on are queued
    // (the predicate type is not exported: a non-capturing closure coerces to the fn pointer)
    storage.force_update_active_blob(|_| park_worker()).await;
    wait_flag(&PRED_ENTERED, "worker did not reach the predicate").await;

    // W1: exceeds the limit, asks for the background sync (request is queued behind the parked worker)
    mark("W1 start");
    storage
        .write(key(1), Bytes::from(vec![1u8; DATA_LEN]), BlobRecordTimestamp::now())
        .await
        .unwrap();
    mark("W1 acknowledged (2000 > limit 1000: TryFsyncData sent)");

    // W2: reserves its range in the blob and is held inside pwrite64
    HOLD_BLOB_WRITE_MIN_LEN.store(1000, Ordering::SeqCst);
    mark("W2 start");
    let w2 = {
        let storage = storage.clone();
        tokio::spawn(async move {
            storage
                .write(key(2), Bytes::from(vec![2u8; DATA_LEN]), BlobRecordTimestamp::now())
                .await
        })
    };
    wait_flag(&WRITE_HELD, "W2 was not caught inside pwrite64").await;
    mark("W2 is held inside pwrite64 (range reserved, bytes not written)");

    // Now the worker serves the sync request of W1
    let pos = mark("worker released: background sync of W1 starts");
    PRED_GATE.open();
    assert!(
        wait_blob_sync_done_after(pos, Duration::from_secs(10)).await,
        "background sync requested by W1 was not performed"
    );
    // fsync has returned; let the sync task finish its bookkeeping completely
    tokio::time::sleep(Duration::from_millis(500)).await;

    // W2's bytes reach the file only now, after the fsync returned
    mark("W2 released");
    WRITE_GATE.open();
    w2.await.unwrap().unwrap();
    let pos = mark("W2 acknowledged (2000 un-synced bytes > limit 1000)");

    // Expected: un-synced bytes of the active blob exceed the limit => a sync follows without further client action
    let synced = wait_blob_sync_done_after(pos, Duration::from_secs(3)).await;
    mark(if synced {
        "a sync of the blob followed W2"
    } else {
        "3s passed: NO sync of the blob followed W2"
    });

    // Read-out of the dirty-byte accounting (not part of the verdict): 569 more bytes. With W2 counted as dirty
    // (2069 + 569 > 1000) a sync would be requested; with W2 counted as synced (569 <= 1000) nothing happens
    let pos = mark("W3 start (500 bytes of data, diagnostic)");
    storage
        .write(key(3), Bytes::from(vec![3u8; 500]), BlobRecordTimestamp::now())
        .await
        .unwrap();
    let synced_w3 = wait_blob_sync_done_after(pos, Duration::from_secs(2)).await;
    mark(if synced_w3 {
        "W3 acknowledged: a sync followed (accounting had W2 as dirty)"
    } else {
        "W3 acknowledged: 2s, no sync => accounting reports <= 1000 dirty bytes although 2638 bytes were written after the last fsync (W2 is counted as synced: 0 dirty bytes after W2)"
    });
    print_trace();

    // clean up before the verdict (close syncs the blob, that sync is not part of the checked window)
    let storage = std::sync::Arc::try_unwrap(storage).expect("single owner");
    storage.close().await.unwrap();
    let _ = std::fs::remove_dir_all(&dir);

    assert!(
        synced,
        "W2 (2069 bytes, written after the last fsync of the blob returned) was acknowledged and no sync of the \
         active blob followed within 3s, although the dirty-byte limit is {}: the sync that overlapped W2 recorded \
         a synced_size that included W2's reserved but not yet written range, so the blob reports 0 dirty bytes",
        LIMIT
    );
}
