// F14 probe: reopened blob (O_APPEND) + one failed append => later acknowledged writes are unreadable in-session
mod common;
use bytes::Bytes;
use common::KeyTest;
use pearl::{BlobRecordTimestamp, ReadResult, Storage};

const RECORD_SIZE: usize = 6000;

fn fsize_limit() -> libc::rlimit {
    let mut lim = libc::rlimit { rlim_cur: 0, rlim_max: 0 };
    assert_eq!(unsafe { libc::getrlimit(libc::RLIMIT_FSIZE, &mut lim) }, 0);
    lim
}
fn set_fsize_soft_limit(soft: libc::rlim_t, hard: libc::rlim_t) {
    let lim = libc::rlimit { rlim_cur: soft, rlim_max: hard };
    assert_eq!(unsafe { libc::setrlimit(libc::RLIMIT_FSIZE, &lim) }, 0);
}
fn payload(i: u32) -> Vec<u8> { (0..RECORD_SIZE as u32).map(|j| j.wrapping_mul(17).wrapping_add(i * 13) as u8).collect() }
async fn write(storage: &Storage<KeyTest>, i: u32) -> anyhow::Result<()> {
    storage.write(KeyTest::new(i), Bytes::from(payload(i)), BlobRecordTimestamp::now()).await
}

#[tokio::test]
async fn probe_f14_reopened_blob_after_failed_append() {
    unsafe { libc::signal(libc::SIGXFSZ, libc::SIG_IGN) };
    let path = common::init("probe_f14");
    let _ = std::fs::remove_dir_all(&path);
    {
        let storage = common::create_test_storage(&path, 10_000_000).await.unwrap();
        for i in 0..3 { write(&storage, i).await.unwrap(); }
        storage.close().await.unwrap();
    }
    // session 2: blob 0 is the active blob again (re-opened file)
    let storage = common::create_test_storage(&path, 10_000_000).await.unwrap();
    let blob = path.join("test.0.blob");
    let len = std::fs::metadata(&blob).unwrap().len();
    let lim = fsize_limit();
    set_fsize_soft_limit(len + 2000, lim.rlim_max);
    let res = write(&storage, 100).await;
    set_fsize_soft_limit(lim.rlim_cur, lim.rlim_max);
    assert!(res.is_err(), "the faulted write must report an error");
    // fault cleared: further writes are acknowledged ...
    for i in 200..205 { write(&storage, i).await.expect("storage accepts writes after the fault cleared"); }
    // ... and must be readable
    for i in (0..3).chain(200..205) {
        match storage.read(KeyTest::new(i)).await {
            Ok(ReadResult::Found(d)) => assert_eq!(d.as_ref(), payload(i).as_slice(), "wrong bytes for key {}", i),
            other => panic!("acknowledged record {} is not readable: {:?}", i, other.map(|r| r.map(|d| d.len()))),
        }
    }
    let _ = std::fs::remove_dir_all(&path);
}
