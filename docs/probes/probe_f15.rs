//! Probe F15: a client future that is dropped while `IndexStruct::load_in_memory` is suspended
//! at `read_meta().await` must not leave the blob with an in-memory index and the (off-loaded)
//! filter of the on-disk state.
//!
//! The future under test is polled by hand. Every file operation of pearl goes through the
//! tokio blocking pool when the runtime is `current_thread`, so the pool is limited to ONE thread
//! and that thread is occupied by a "gate" task before each poll: a poll advances the future by
//! exactly one file operation, which makes "drop after k polls" deterministic.

mod common;

use common::KeyTest;
use pearl::{BlobRecordTimestamp, BloomProvider, ReadResult, Storage};
use std::future::Future;
use std::path::{Path, PathBuf};
use std::sync::mpsc;
use std::task::Poll;
use std::time::Duration;

const RECORDS: u32 = 40;
const MAX_K: usize = 64;
const DELETED_KEY: u32 = 7;
const NEW_KEY: u32 = 1_000_000;

#[derive(Clone, Copy, Debug, PartialEq)]
enum Op {
    Restore,
    Delete,
}

fn runtime() -> tokio::runtime::Runtime {
    tokio::runtime::Builder::new_current_thread()
        .enable_all()
        .max_blocking_threads(1)
        .build()
        .expect("runtime")
}

fn value_of(key: u32) -> Vec<u8> {
    format!("value-of-record-{:08}-{}", key, "x".repeat(64)).into_bytes()
}

/// Occupies the only thread of the blocking pool until the sender is used or dropped
fn close_gate() -> mpsc::Sender<()> {
    let (tx, rx) = mpsc::channel::<()>();
    tokio::task::spawn_blocking(move || {
        let _ = rx.recv();
    });
    tx
}

/// Waits until everything that was queued to the blocking pool before this call is finished
async fn drain_blocking_pool() {
    tokio::task::spawn_blocking(|| ()).await.expect("drain");
}

/// Polls `fut` at most `k` times, one file operation per poll, then drops it.
/// Returns the output if the future completed within `k` polls.
async fn poll_k_then_drop<F: Future>(fut: F, k: usize) -> Option<F::Output> {
    let mut fut = Box::pin(fut);
    for _ in 0..k {
        let gate = close_gate();
        let res = futures::poll!(fut.as_mut());
        let _ = gate.send(());
        drain_blocking_pool().await;
        if let Poll::Ready(out) = res {
            return Some(out);
        }
    }
    drop(fut);
    None
}

async fn open(path: &Path) -> Storage<KeyTest> {
    common::create_custom_test_storage(path, |b| b)
        .await
        .expect("storage is opened")
}

/// Storage without active blob, with one closed blob whose index is on disk and whose bloom
/// filter buffer is off-loaded
async fn prepare(path: &Path) -> Storage<KeyTest> {
    let mut storage = open(path).await;
    for i in 0..RECORDS {
        storage
            .write(KeyTest::new(i), value_of(i).into(), BlobRecordTimestamp::new(1))
            .await
            .expect("initial write");
    }
    storage.try_close_active_blob().await.expect("close active blob");
    let index_file = path.join("test.0.index");
    // offload_buffer frees something only when the index of the blob is already on disk
    let mut freed = 0;
    for _ in 0..500 {
        if index_file.exists() {
            freed += storage.offload_buffer(usize::MAX, 0).await;
            if freed > 0 {
                break;
            }
        }
        tokio::time::sleep(Duration::from_millis(10)).await;
    }
    assert!(index_file.exists(), "index file was not dumped");
    assert!(freed > 0, "bloom filter buffer was not off-loaded");
    assert!(!storage.has_active_blob().await);
    // let the observer finish whatever it was doing
    tokio::time::sleep(Duration::from_millis(50)).await;
    drain_blocking_pool().await;
    storage
}

/// Ok(true) - operation completed within k polls (nothing was dropped), Ok(false) - dropped and
/// everything after it succeeded, Err - dropped and something after it failed
async fn scenario(op: Op, k: usize, path: PathBuf) -> Result<bool, String> {
    let storage = prepare(&path).await;

    let completed = match op {
        Op::Restore => poll_k_then_drop(storage.try_restore_active_blob(), k)
            .await
            .map(|r| r.map_err(|e| format!("{:#}", e))),
        Op::Delete => poll_k_then_drop(
            storage.delete(KeyTest::new(DELETED_KEY), BlobRecordTimestamp::new(2), true),
            k,
        )
        .await
        .map(|r| r.map(|_| ()).map_err(|e| format!("{:#}", e))),
    };
    if let Some(res) = completed {
        res.map_err(|e| format!("uncancelled operation failed: {}", e))?;
        storage.close().await.map_err(|e| format!("close after completed op: {:#}", e))?;
        return Ok(true);
    }

    // The operation was cancelled. Everything below must succeed
    let mut errors = Vec::new();
    if !storage.has_active_blob().await {
        if let Err(e) = storage.try_restore_active_blob().await {
            errors.push(format!("try_restore_active_blob: {:#}", e));
        }
    }
    let mut written = false;
    match storage
        .write(KeyTest::new(NEW_KEY), value_of(NEW_KEY).into(), BlobRecordTimestamp::new(3))
        .await
    {
        Ok(()) => written = true,
        Err(e) => errors.push(format!("write: {:#}", e)),
    }
    if let Err(e) = storage.close().await {
        errors.push(format!("close: {:#}", e));
    }

    // Re-open: every record is readable
    let storage = open(&path).await;
    let mut keys: Vec<u32> = (0..RECORDS).collect();
    if written {
        keys.push(NEW_KEY);
    }
    for key in keys {
        match storage.read(KeyTest::new(key)).await {
            Ok(ReadResult::Found(data)) => {
                if data.as_ref() != value_of(key).as_slice() {
                    errors.push(format!("read {} after re-open: wrong data", key));
                }
            }
            // cancelled delete is allowed to have taken effect
            Ok(ReadResult::Deleted(_)) if op == Op::Delete && key == DELETED_KEY => {}
            Ok(other) => errors.push(format!("read {} after re-open: {:?}", key, other.map(|_| ()))),
            Err(e) => errors.push(format!("read {} after re-open: {:#}", key, e)),
        }
    }
    if let Err(e) = storage.close().await {
        errors.push(format!("close after re-open: {:#}", e));
    }

    if errors.is_empty() {
        Ok(false)
    } else {
        Err(errors.join(" | "))
    }
}

fn run(op: Op, name: &str) {
    let base = common::init(name);
    let rt = runtime();
    let mut failures = Vec::new();
    let mut completed_at = None;
    for k in 1..=MAX_K {
        let path = base.join(format!("k{}", k));
        match rt.block_on(scenario(op, k, path)) {
            Ok(true) => {
                completed_at = Some(k);
                break;
            }
            Ok(false) => println!("{:?}: dropped after {} polls: later operations are fine", op, k),
            Err(e) => {
                println!("{:?}: dropped after {} polls: FAILURE: {}", op, k, e);
                failures.push((k, e));
            }
        }
    }
    let _ = std::fs::remove_dir_all(&base);
    let completed_at = completed_at.expect("operation completes within MAX_K polls");
    println!("{:?}: uncancelled operation needs {} polls", op, completed_at);
    assert!(completed_at > 2, "operation did not suspend on file reads, probe is void");
    assert!(
        failures.is_empty(),
        "{:?}: operations after a cancelled one failed: {:?}",
        op,
        failures
    );
}

#[test]
fn cancelled_restore_active_blob_keeps_index_and_filter_consistent() {
    run(Op::Restore, "probe_f15_restore");
}

#[test]
fn cancelled_delete_in_closed_blob_keeps_index_and_filter_consistent() {
    run(Op::Delete, "probe_f15_delete");
}
