// pearl-facts: a rustc_private driver that serialises the type-checked program
// (pre-state-transform MIR of every body, ADTs, consts, trait impls) of the crate
// `pearl` as one JSON document. It decides nothing: all rules live in /verif/rules.
//
// Usage: injected as RUSTC_WORKSPACE_WRAPPER; env PEARL_FACTS_OUT=<file>,
// PEARL_FACTS_NONCE=<string>, PEARL_FACTS_CRATE=<crate name, default pearl>.
#![feature(rustc_private)]
#![allow(clippy::all)]

extern crate rustc_abi;
extern crate rustc_data_structures;
extern crate rustc_session;
extern crate rustc_driver;
extern crate rustc_hir;
extern crate rustc_interface;
extern crate rustc_middle;
extern crate rustc_span;

use rustc_driver::{Callbacks, Compilation};
use rustc_hir::def::DefKind;
use rustc_hir::def_id::{DefId, LocalDefId, LOCAL_CRATE};
use rustc_interface::interface;
use rustc_middle::mir::{
    self, AggregateKind, BorrowKind, ConstValue, Operand, Place, ProjectionElem, Rvalue,
    StatementKind, TerminatorKind, UnwindAction,
};
use rustc_middle::ty::print::with_no_trimmed_paths;
use rustc_middle::ty::{self, Ty, TyCtxt, TypingEnv};
use rustc_span::Span;
use std::fmt::Write as _;

struct Facts;

// mir_built is stolen as soon as anything downstream (borrowck, needed e.g. to reveal
// an async fn's opaque return type for a Send check in *another* body) is demanded.
// We therefore override the mir_built provider and stash a clone of every body at
// the moment it is built. Single-threaded front end: a thread-local is enough.
thread_local! {
    static STASH: std::cell::RefCell<std::collections::HashMap<LocalDefId, mir::Body<'static>>> =
        std::cell::RefCell::new(std::collections::HashMap::new());
}
static DEFAULT_MIR_BUILT: std::sync::OnceLock<
    for<'tcx> fn(TyCtxt<'tcx>, LocalDefId) -> &'tcx rustc_data_structures::steal::Steal<mir::Body<'tcx>>,
> = std::sync::OnceLock::new();

fn stash_mir_built<'tcx>(
    tcx: TyCtxt<'tcx>,
    def: LocalDefId,
) -> &'tcx rustc_data_structures::steal::Steal<mir::Body<'tcx>> {
    let r = (DEFAULT_MIR_BUILT.get().expect("default provider"))(tcx, def);
    let body: mir::Body<'tcx> = r.borrow().clone();
    // SAFETY: the clone is only read back inside after_expansion of the same TyCtxt.
    let body: mir::Body<'static> = unsafe { std::mem::transmute(body) };
    STASH.with(|s| s.borrow_mut().insert(def, body));
    r
}

fn esc(s: &str) -> String {
    let mut o = String::with_capacity(s.len() + 2);
    o.push('"');
    for c in s.chars() {
        match c {
            '"' => o.push_str("\\\""),
            '\\' => o.push_str("\\\\"),
            '\n' => o.push_str("\\n"),
            '\r' => o.push_str("\\r"),
            '\t' => o.push_str("\\t"),
            c if (c as u32) < 0x20 => {
                let _ = write!(o, "\\u{:04x}", c as u32);
            }
            c => o.push(c),
        }
    }
    o.push('"');
    o
}

fn join(v: &[String]) -> String {
    v.join(",")
}

struct Cx<'tcx> {
    tcx: TyCtxt<'tcx>,
}

impl<'tcx> Cx<'tcx> {
    fn path(&self, did: DefId) -> String {
        with_no_trimmed_paths!(self.tcx.def_path_str(did))
    }
    fn ty_str(&self, t: Ty<'tcx>) -> String {
        with_no_trimmed_paths!(format!("{}", t))
    }
    fn line(&self, sp: Span) -> (String, usize) {
        let sm = self.tcx.sess.source_map();
        let sp = sp.source_callsite();
        let loc = sm.lookup_char_pos(sp.lo());
        let f = match &loc.file.name {
            rustc_span::FileName::Real(r) => match r.local_path() {
                Some(p) => p.to_string_lossy().to_string(),
                None => format!("{:?}", r),
            },
            o => format!("{:?}", o),
        };
        (f, loc.line)
    }
    fn ln(&self, sp: Span) -> usize {
        let sm = self.tcx.sess.source_map();
        sm.lookup_char_pos(sp.source_callsite().lo()).line
    }

    // type descriptor: {"s": printed, "h": head adt path | kind, "a": [generic arg strings]}
    fn ty_json(&self, t: Ty<'tcx>) -> String {
        let s = self.ty_str(t);
        let (h, a): (String, Vec<String>) = match t.kind() {
            ty::Adt(def, args) => (
                self.path(def.did()),
                args.iter().map(|g| with_no_trimmed_paths!(format!("{}", g))).collect(),
            ),
            ty::Ref(_, inner, m) => (
                if m.is_mut() { "&mut".into() } else { "&".into() },
                vec![self.ty_str(*inner)],
            ),
            ty::RawPtr(inner, m) => (
                if m.is_mut() { "*mut".into() } else { "*const".into() },
                vec![self.ty_str(*inner)],
            ),
            ty::Closure(d, _) => ("closure".into(), vec![self.path(*d)]),
            ty::Coroutine(d, _) => ("coroutine".into(), vec![self.path(*d)]),
            ty::CoroutineClosure(d, _) => ("coroutine_closure".into(), vec![self.path(*d)]),
            ty::FnDef(d, _) => ("fndef".into(), vec![self.path(*d)]),
            ty::FnPtr(..) => ("fnptr".into(), vec![]),
            ty::Tuple(ts) => ("tuple".into(), ts.iter().map(|x| self.ty_str(x)).collect()),
            ty::Param(_) => ("param".into(), vec![]),
            ty::Alias(..) => ("alias".into(), vec![]),
            ty::Dynamic(..) => ("dyn".into(), vec![]),
            ty::Slice(e) => ("slice".into(), vec![self.ty_str(*e)]),
            ty::Array(e, _) => ("array".into(), vec![self.ty_str(*e)]),
            ty::Bool | ty::Char | ty::Int(_) | ty::Uint(_) | ty::Float(_) | ty::Str => {
                ("prim".into(), vec![])
            }
            ty::Never => ("never".into(), vec![]),
            _ => ("other".into(), vec![]),
        };
        let a: Vec<String> = a.iter().map(|x| esc(x)).collect();
        format!("{{\"s\":{},\"h\":{},\"a\":[{}]}}", esc(&s), esc(&h), join(&a))
    }

    fn place_json(&self, body: &mir::Body<'tcx>, p: &Place<'tcx>) -> String {
        let mut projs: Vec<String> = Vec::new();
        let mut cur = mir::PlaceTy::from_ty(body.local_decls[p.local].ty);
        for elem in p.projection.iter() {
            let s = match elem {
                ProjectionElem::Deref => "\"*\"".to_string(),
                ProjectionElem::Field(f, _) => {
                    // field name when the base is an ADT
                    let name = match cur.ty.kind() {
                        ty::Adt(def, _) => {
                            let v = match cur.variant_index {
                                Some(v) => def.variant(v),
                                None => {
                                    if def.is_enum() {
                                        // should not happen without downcast
                                        def.variant(rustc_abi::VariantIdx::from_u32(0))
                                    } else {
                                        def.non_enum_variant()
                                    }
                                }
                            };
                            v.fields.get(f).map(|fd| fd.name.to_string()).unwrap_or_default()
                        }
                        _ => String::new(),
                    };
                    format!("{{\"f\":{},\"n\":{}}}", f.as_u32(), esc(&name))
                }
                ProjectionElem::Downcast(name, v) => {
                    let n = match name {
                        Some(s) => s.to_string(),
                        None => match cur.ty.kind() {
                            ty::Adt(def, _) if def.is_enum() => def.variant(v).name.to_string(),
                            _ => String::new(),
                        },
                    };
                    format!("{{\"v\":{},\"n\":{}}}", v.as_u32(), esc(&n))
                }
                ProjectionElem::Index(l) => format!("{{\"i\":{}}}", l.as_u32()),
                ProjectionElem::ConstantIndex { offset, from_end, .. } => {
                    format!("{{\"ci\":{},\"fe\":{}}}", offset, from_end)
                }
                ProjectionElem::Subslice { .. } => "\"sub\"".to_string(),
                ProjectionElem::OpaqueCast(_) => "\"oc\"".to_string(),
                ProjectionElem::UnwrapUnsafeBinder(_) => "\"ub\"".to_string(),
            };
            projs.push(s);
            cur = cur.projection_ty(self.tcx, elem);
        }
        format!("[{},[{}]]", p.local.as_u32(), join(&projs))
    }

    fn const_json(&self, env: TypingEnv<'tcx>, c: &mir::ConstOperand<'tcx>) -> String {
        let ty = c.const_.ty();
        let mut out = format!("{{\"ty\":{}", esc(&self.ty_str(ty)));
        match ty.kind() {
            ty::FnDef(did, args) => {
                let _ = write!(out, ",\"fn\":{}", self.callee_json(env, *did, args));
            }
            _ => {}
        }
        if let mir::Const::Unevaluated(uv, _) = c.const_ {
            let _ = write!(out, ",\"item\":{}", esc(&self.path(uv.def)));
            if uv.promoted.is_some() {
                let _ = write!(out, ",\"promoted\":true");
            }
        }
        // integers / bools / chars
        let is_scalar_ty = matches!(
            ty.kind(),
            ty::Bool | ty::Char | ty::Int(_) | ty::Uint(_)
        );
        if is_scalar_ty {
            let promoted = matches!(c.const_, mir::Const::Unevaluated(uv, _) if uv.promoted.is_some());
            if !promoted {
                if let Some(si) = c.const_.try_eval_scalar_int(self.tcx, env) {
                    let size = si.size();
                    let bits = si.to_bits(size);
                    let v: i128 = if let ty::Int(_) = ty.kind() {
                        // sign extend
                        let sh = 128 - size.bits();
                        ((bits as i128) << sh) >> sh
                    } else {
                        bits as i128
                    };
                    let _ = write!(out, ",\"int\":{}", v);
                }
            }
        } else if let ty::Ref(_, inner, _) = ty.kind() {
            if inner.is_str() {
                if let mir::Const::Val(cv, _) = c.const_ {
                    if let ConstValue::Slice { .. } = cv {
                        if let Some(b) = cv.try_get_slice_bytes_for_diagnostics(self.tcx) {
                            let _ = write!(out, ",\"str\":{}", esc(&String::from_utf8_lossy(b)));
                        }
                    }
                }
            }
        }
        out.push('}');
        out
    }

    fn operand_json(&self, body: &mir::Body<'tcx>, env: TypingEnv<'tcx>, o: &Operand<'tcx>) -> String {
        match o {
            Operand::Copy(p) => format!("{{\"c\":{}}}", self.place_json(body, p)),
            Operand::Move(p) => format!("{{\"m\":{}}}", self.place_json(body, p)),
            Operand::Constant(c) => format!("{{\"k\":{}}}", self.const_json(env, c)),
            _ => "{\"k\":{\"ty\":\"runtime_checks\"}}".to_string(),
        }
    }

    fn callee_json(&self, env: TypingEnv<'tcx>, did: DefId, args: ty::GenericArgsRef<'tcx>) -> String {
        let tcx = self.tcx;
        let path = self.path(did);
        let full = with_no_trimmed_paths!(tcx.def_path_str_with_args(did, args));
        let krate = tcx.crate_name(did.krate).to_string();
        let gargs: Vec<String> = args
            .iter()
            .map(|g| esc(&with_no_trimmed_paths!(format!("{}", g))))
            .collect();
        let mut out = format!(
            "{{\"path\":{},\"full\":{},\"crate\":{},\"args\":[{}]",
            esc(&path),
            esc(&full),
            esc(&krate),
            join(&gargs)
        );
        let _ = write!(out, ",\"name\":{}", esc(&tcx.item_name(did).to_string()));
        if let Some(tr) = tcx.trait_of_assoc(did) {
            let _ = write!(out, ",\"trait\":{}", esc(&self.path(tr)));
            if args.len() > 0 {
                if let Some(st) = args[0].as_type() {
                    let _ = write!(out, ",\"self_ty\":{}", self.ty_json(st));
                }
            }
        } else if let Some(imp) = tcx.inherent_impl_of_assoc(did) {
            let st = tcx.type_of(imp).instantiate_identity().skip_norm_wip();
            if let ty::Adt(def, _) = st.kind() {
                let _ = write!(out, ",\"impl_of\":{}", esc(&self.path(def.did())));
            }
        }
        // resolution
        let resolvable = matches!(tcx.def_kind(did), DefKind::Fn | DefKind::AssocFn);
        if resolvable {
            let r = std::panic::catch_unwind(std::panic::AssertUnwindSafe(|| {
                ty::Instance::try_resolve(tcx, env, did, args)
            }));
            if let Ok(Ok(Some(inst))) = r {
                let rd = inst.def_id();
                if rd != did {
                    let _ = write!(out, ",\"res\":{}", esc(&self.path(rd)));
                    let _ = write!(
                        out,
                        ",\"res_full\":{}",
                        esc(&with_no_trimmed_paths!(tcx.def_path_str_with_args(rd, inst.args)))
                    );
                    let _ = write!(out, ",\"res_crate\":{}", esc(&tcx.crate_name(rd.krate).to_string()));
                }
                let kind = match inst.def {
                    ty::InstanceKind::Item(_) => "item",
                    ty::InstanceKind::Virtual(..) => "virtual",
                    ty::InstanceKind::ClosureOnceShim { .. } => "closure_once",
                    ty::InstanceKind::FnPtrShim(..) => "fnptr_shim",
                    ty::InstanceKind::DropGlue(..) => "drop_glue",
                    ty::InstanceKind::CloneShim(..) => "clone_shim",
                    ty::InstanceKind::Intrinsic(..) => "intrinsic",
                    _ => "other",
                };
                let _ = write!(out, ",\"res_kind\":\"{}\"", kind);
            }
        }
        out.push('}');
        out
    }

    fn rvalue_json(&self, body: &mir::Body<'tcx>, env: TypingEnv<'tcx>, r: &Rvalue<'tcx>) -> String {
        let op = |o: &Operand<'tcx>| self.operand_json(body, env, o);
        match r {
            Rvalue::Use(o, ..) => format!("{{\"k\":\"use\",\"o\":{}}}", op(o)),
            Rvalue::Repeat(o, _) => format!("{{\"k\":\"repeat\",\"o\":{}}}", op(o)),
            Rvalue::Ref(_, bk, p) => {
                let m = match bk {
                    BorrowKind::Shared => "s",
                    BorrowKind::Fake(_) => "f",
                    BorrowKind::Mut { .. } => "m",
                };
                format!("{{\"k\":\"ref\",\"m\":\"{}\",\"p\":{}}}", m, self.place_json(body, p))
            }
            Rvalue::RawPtr(_, p) => format!("{{\"k\":\"rawptr\",\"p\":{}}}", self.place_json(body, p)),
            Rvalue::Cast(ck, o, t) => format!(
                "{{\"k\":\"cast\",\"ck\":{},\"o\":{},\"ty\":{}}}",
                esc(&format!("{:?}", ck)),
                op(o),
                esc(&self.ty_str(*t))
            ),
            Rvalue::BinaryOp(b, ops) => format!(
                "{{\"k\":\"bin\",\"op\":\"{:?}\",\"a\":{},\"b\":{}}}",
                b,
                op(&ops.0),
                op(&ops.1)
            ),
            Rvalue::UnaryOp(u, o) => format!("{{\"k\":\"un\",\"op\":\"{:?}\",\"o\":{}}}", u, op(o)),
            Rvalue::Discriminant(p) => format!("{{\"k\":\"discr\",\"p\":{}}}", self.place_json(body, p)),
            Rvalue::CopyForDeref(p) => format!("{{\"k\":\"use\",\"o\":{{\"c\":{}}}}}", self.place_json(body, p)),
            Rvalue::Aggregate(ak, ops) => {
                let opsj: Vec<String> = ops.iter().map(|o| op(o)).collect();
                let head = match &**ak {
                    AggregateKind::Array(_) => "\"ak\":\"array\"".to_string(),
                    AggregateKind::Tuple => "\"ak\":\"tuple\"".to_string(),
                    AggregateKind::Adt(did, vi, _, _, active) => {
                        let def = self.tcx.adt_def(*did);
                        let v = def.variant(*vi);
                        let fields: Vec<String> = match active {
                            Some(f) => vec![esc(&v.fields[*f].name.to_string())],
                            None => v.fields.iter().map(|f| esc(&f.name.to_string())).collect(),
                        };
                        let vd = if def.is_enum() { def.discriminant_for_variant(self.tcx, *vi).val } else { 0 };
                        format!(
                            "\"ak\":\"adt\",\"adt\":{},\"variant\":{},\"vd\":{},\"fields\":[{}]",
                            esc(&self.path(*did)),
                            esc(&v.name.to_string()),
                            vd,
                            join(&fields)
                        )
                    }
                    AggregateKind::Closure(did, _) => format!("\"ak\":\"closure\",\"def\":{}", esc(&self.path(*did))),
                    AggregateKind::Coroutine(did, _) => format!("\"ak\":\"coroutine\",\"def\":{}", esc(&self.path(*did))),
                    AggregateKind::CoroutineClosure(did, _) => {
                        format!("\"ak\":\"coroutine_closure\",\"def\":{}", esc(&self.path(*did)))
                    }
                    AggregateKind::RawPtr(..) => "\"ak\":\"rawptr\"".to_string(),
                };
                format!("{{\"k\":\"agg\",{},\"ops\":[{}]}}", head, join(&opsj))
            }
            Rvalue::ThreadLocalRef(d) => format!("{{\"k\":\"tls\",\"def\":{}}}", esc(&self.path(*d))),
            Rvalue::WrapUnsafeBinder(o, _) => format!("{{\"k\":\"use\",\"o\":{}}}", op(o)),
            #[allow(unreachable_patterns)]
            _ => "{\"k\":\"other\"}".to_string(),
        }
    }

    fn unwind_json(u: &UnwindAction) -> String {
        match u {
            UnwindAction::Cleanup(b) => format!("{}", b.as_u32()),
            _ => "null".to_string(),
        }
    }

    fn body_json(&self, ldid: LocalDefId, body: &mir::Body<'tcx>) -> String {
        let tcx = self.tcx;
        let did = ldid.to_def_id();
        let env = TypingEnv::post_analysis(tcx, did);
        let mut out = String::new();
        let id = self.path(did);
        let (file, line) = self.line(body.span);
        let kind = tcx.def_kind(did);
        let kind_s = format!("{:?}", kind);
        let _ = write!(
            out,
            "{{\"id\":{},\"kind\":{},\"file\":{},\"line\":{},\"argc\":{}",
            esc(&id),
            esc(&kind_s),
            esc(&file),
            line,
            body.arg_count
        );
        let end_line = {
            let sm = tcx.sess.source_map();
            sm.lookup_char_pos(body.span.source_callsite().hi()).line
        };
        let _ = write!(out, ",\"end_line\":{}", end_line);
        // parent body (closures / coroutines)
        let root = tcx.typeck_root_def_id(did);
        if root != did {
            let _ = write!(out, ",\"root\":{}", esc(&self.path(root)));
            let par = tcx.parent(did);
            let _ = write!(out, ",\"parent\":{}", esc(&self.path(par)));
        }
        if body.coroutine.is_some() {
            let _ = write!(out, ",\"coroutine\":true");
            if let Some(ck) = tcx.coroutine_kind(did) {
                let _ = write!(out, ",\"coroutine_kind\":{}", esc(&format!("{:?}", ck)));
            }
        }
        if matches!(kind, DefKind::Fn | DefKind::AssocFn) {
            let vis = tcx.visibility(did);
            let _ = write!(out, ",\"vis\":{}", esc(&format!("{:?}", vis)));
            let _ = write!(out, ",\"pub\":{}", vis.is_public());
            let asy = tcx.asyncness(did).is_async();
            let _ = write!(out, ",\"async\":{}", asy);
            if let Some(imp) = tcx.inherent_impl_of_assoc(did) {
                let st = tcx.type_of(imp).instantiate_identity().skip_norm_wip();
                let _ = write!(out, ",\"impl_self\":{}", self.ty_json(st));
            } else if let Some(imp) = tcx.trait_impl_of_assoc(did) {
                let st = tcx.type_of(imp).instantiate_identity().skip_norm_wip();
                let _ = write!(out, ",\"impl_self\":{}", self.ty_json(st));
                let tr = tcx.impl_trait_ref(imp).instantiate_identity().skip_norm_wip();
                let _ = write!(out, ",\"impl_trait\":{}", esc(&self.path(tr.def_id)));
                if let Some(ai) = tcx.opt_associated_item(did) {
                    if let Some(tid) = ai.trait_item_def_id() {
                        let _ = write!(out, ",\"trait_item\":{}", esc(&self.path(tid)));
                    }
                }
            } else if let Some(tr) = tcx.trait_of_assoc(did) {
                let _ = write!(out, ",\"in_trait\":{}", esc(&self.path(tr)));
            }
        }
        let _ = write!(out, ",\"name\":{}", esc(&tcx.opt_item_name(did).map(|s| s.to_string()).unwrap_or_default()));
        // trait bounds on type parameters (own + parents'), for pruning class-hierarchy resolution
        {
            let root = tcx.typeck_root_def_id(did);
            let preds = tcx.predicates_of(root).instantiate_identity(tcx);
            let mut bounds: Vec<String> = Vec::new();
            for p in preds.predicates.iter() {
                let cl = p.skip_norm_wip();
                if let Some(tp) = cl.as_trait_clause() {
                    let tp = tp.skip_binder();
                    let st = tp.self_ty();
                    if let ty::Param(_) = st.kind() {
                        bounds.push(format!("[{},{}]", esc(&self.ty_str(st)), esc(&self.path(tp.def_id()))));
                    }
                }
            }
            let _ = write!(out, ",\"bounds\":[{}]", join(&bounds));
        }
        // locals
        let mut locals: Vec<String> = Vec::new();
        for (_l, d) in body.local_decls.iter_enumerated() {
            locals.push(self.ty_json(d.ty));
        }
        let _ = write!(out, ",\"locals\":[{}]", join(&locals));
        // debug info
        let mut dbg: Vec<String> = Vec::new();
        for v in body.var_debug_info.iter() {
            if let mir::VarDebugInfoContents::Place(p) = &v.value {
                dbg.push(format!("[{},{}]", esc(&v.name.to_string()), self.place_json(body, p)));
            }
        }
        let _ = write!(out, ",\"debug\":[{}]", join(&dbg));
        // blocks
        let mut blocks: Vec<String> = Vec::new();
        for (_bb, data) in body.basic_blocks.iter_enumerated() {
            let mut stmts: Vec<String> = Vec::new();
            for st in data.statements.iter() {
                match &st.kind {
                    StatementKind::Assign(b) => {
                        let (p, r) = &**b;
                        stmts.push(format!(
                            "{{\"k\":\"a\",\"d\":{},\"r\":{},\"l\":{}}}",
                            self.place_json(body, p),
                            self.rvalue_json(body, env, r),
                            self.ln(st.source_info.span)
                        ));
                    }
                    StatementKind::StorageDead(l) => {
                        stmts.push(format!("{{\"k\":\"sd\",\"v\":{}}}", l.as_u32()));
                    }
                    StatementKind::StorageLive(l) => {
                        stmts.push(format!("{{\"k\":\"sl\",\"v\":{}}}", l.as_u32()));
                    }
                    StatementKind::SetDiscriminant { place, variant_index } => {
                        stmts.push(format!(
                            "{{\"k\":\"setdiscr\",\"d\":{},\"v\":{}}}",
                            self.place_json(body, place),
                            variant_index.as_u32()
                        ));
                    }
                    _ => {}
                }
            }
            let term = data.terminator();
            let tl = self.ln(term.source_info.span);
            let expn = term.source_info.span.from_expansion();
            let t = match &term.kind {
                TerminatorKind::Goto { target } => format!("{{\"k\":\"goto\",\"t\":{}}}", target.as_u32()),
                TerminatorKind::SwitchInt { discr, targets } => {
                    let vals: Vec<String> = targets
                        .iter()
                        .map(|(v, t)| format!("[{},{}]", v, t.as_u32()))
                        .collect();
                    format!(
                        "{{\"k\":\"switch\",\"o\":{},\"vals\":[{}],\"otherwise\":{},\"l\":{}}}",
                        self.operand_json(body, env, discr),
                        join(&vals),
                        targets.otherwise().as_u32(),
                        tl
                    )
                }
                TerminatorKind::UnwindResume => "{\"k\":\"resume\"}".to_string(),
                TerminatorKind::UnwindTerminate(_) => "{\"k\":\"terminate\"}".to_string(),
                TerminatorKind::Return => format!("{{\"k\":\"return\",\"l\":{}}}", tl),
                TerminatorKind::Unreachable => "{\"k\":\"unreachable\"}".to_string(),
                TerminatorKind::Drop { place, target, unwind, drop, .. } => format!(
                    "{{\"k\":\"drop\",\"p\":{},\"t\":{},\"u\":{},\"cd\":{},\"l\":{}}}",
                    self.place_json(body, place),
                    target.as_u32(),
                    Self::unwind_json(unwind),
                    drop.map(|b| b.as_u32().to_string()).unwrap_or("null".into()),
                    tl
                ),
                TerminatorKind::Call { func, args, destination, target, unwind, fn_span, .. } => {
                    let argsj: Vec<String> =
                        args.iter().map(|a| self.operand_json(body, env, &a.node)).collect();
                    let f = match func {
                        Operand::Constant(c) => match c.const_.ty().kind() {
                            ty::FnDef(did, gargs) => self.callee_json(env, *did, gargs),
                            _ => format!("{{\"indirect\":{}}}", self.operand_json(body, env, func)),
                        },
                        _ => format!("{{\"indirect\":{}}}", self.operand_json(body, env, func)),
                    };
                    format!(
                        "{{\"k\":\"call\",\"f\":{},\"args\":[{}],\"d\":{},\"t\":{},\"u\":{},\"l\":{},\"fl\":{},\"exp\":{}}}",
                        f,
                        join(&argsj),
                        self.place_json(body, destination),
                        target.map(|b| b.as_u32().to_string()).unwrap_or("null".into()),
                        Self::unwind_json(unwind),
                        tl,
                        self.ln(*fn_span),
                        expn
                    )
                }
                TerminatorKind::TailCall { .. } => "{\"k\":\"tailcall\"}".to_string(),
                TerminatorKind::Assert { cond, expected, target, unwind, .. } => format!(
                    "{{\"k\":\"assert\",\"o\":{},\"exp\":{},\"t\":{},\"u\":{}}}",
                    self.operand_json(body, env, cond),
                    expected,
                    target.as_u32(),
                    Self::unwind_json(unwind)
                ),
                TerminatorKind::Yield { value, resume, resume_arg, drop } => format!(
                    "{{\"k\":\"yield\",\"o\":{},\"resume\":{},\"ra\":{},\"drop\":{},\"l\":{}}}",
                    self.operand_json(body, env, value),
                    resume.as_u32(),
                    self.place_json(body, resume_arg),
                    drop.map(|b| b.as_u32().to_string()).unwrap_or("null".into()),
                    tl
                ),
                TerminatorKind::CoroutineDrop => "{\"k\":\"cordrop\"}".to_string(),
                TerminatorKind::FalseEdge { real_target, imaginary_target } => format!(
                    "{{\"k\":\"goto\",\"t\":{},\"false_edge\":{}}}",
                    real_target.as_u32(),
                    imaginary_target.as_u32()
                ),
                TerminatorKind::FalseUnwind { real_target, .. } => {
                    format!("{{\"k\":\"goto\",\"t\":{},\"false_unwind\":true}}", real_target.as_u32())
                }
                TerminatorKind::InlineAsm { .. } => "{\"k\":\"asm\"}".to_string(),
            };
            blocks.push(format!(
                "{{\"c\":{},\"s\":[{}],\"t\":{}}}",
                data.is_cleanup,
                join(&stmts),
                t
            ));
        }
        let _ = write!(out, ",\"blocks\":[{}]}}", join(&blocks));
        out
    }

    fn adts_json(&self) -> String {
        let tcx = self.tcx;
        let mut v: Vec<String> = Vec::new();
        for id in tcx.hir_free_items() {
            let did = id.owner_id.to_def_id();
            let dk = tcx.def_kind(did);
            if !matches!(dk, DefKind::Struct | DefKind::Enum | DefKind::Union) {
                continue;
            }
            let def = tcx.adt_def(did);
            let mut vars: Vec<String> = Vec::new();
            for var in def.variants().iter() {
                let fields: Vec<String> = var
                    .fields
                    .iter()
                    .map(|f| {
                        let t = tcx.type_of(f.did).instantiate_identity().skip_norm_wip();
                        format!(
                            "{{\"name\":{},\"ty\":{},\"pub\":{}}}",
                            esc(&f.name.to_string()),
                            self.ty_json(t),
                            f.vis.is_public()
                        )
                    })
                    .collect();
                vars.push(format!("{{\"name\":{},\"fields\":[{}]}}", esc(&var.name.to_string()), join(&fields)));
            }
            let (file, line) = self.line(tcx.def_span(did));
            v.push(format!(
                "{{\"path\":{},\"kind\":{},\"file\":{},\"line\":{},\"repr\":{},\"variants\":[{}]}}",
                esc(&self.path(did)),
                esc(&format!("{:?}", dk)),
                esc(&file),
                line,
                esc(&format!("{:?}", def.repr())),
                join(&vars)
            ));
        }
        join(&v)
    }

    fn consts_json(&self) -> String {
        let tcx = self.tcx;
        let mut v: Vec<String> = Vec::new();
        for ldid in tcx.hir_body_owners() {
            let did = ldid.to_def_id();
            let dk = tcx.def_kind(did);
            let is_const = matches!(dk, DefKind::Const { .. } | DefKind::AssocConst { .. });
            let is_static = matches!(dk, DefKind::Static { .. });
            if !is_const && !is_static {
                continue;
            }
            let ty = tcx.type_of(did).instantiate_identity().skip_norm_wip();
            let mut e = format!(
                "{{\"path\":{},\"kind\":{},\"ty\":{}",
                esc(&self.path(did)),
                esc(if is_const { "const" } else { "static" }),
                esc(&self.ty_str(ty))
            );
            let generic = tcx.generics_of(did).requires_monomorphization(tcx);
            if is_const && !generic {
                let r = std::panic::catch_unwind(std::panic::AssertUnwindSafe(|| tcx.const_eval_poly(did)));
                if let Ok(Ok(cv)) = r {
                    match cv {
                        ConstValue::Scalar(_) => {
                            if let Some(si) = cv.try_to_scalar_int() {
                                let size = si.size();
                                let bits = si.to_bits(size);
                                let val: i128 = if let ty::Int(_) = ty.kind() {
                                    let sh = 128 - size.bits();
                                    ((bits as i128) << sh) >> sh
                                } else {
                                    bits as i128
                                };
                                let _ = write!(e, ",\"int\":{}", val);
                            }
                        }
                        ConstValue::Slice { .. } => {
                            if let Some(b) = cv.try_get_slice_bytes_for_diagnostics(tcx) {
                                let _ = write!(e, ",\"str\":{}", esc(&String::from_utf8_lossy(b)));
                            }
                        }
                        ConstValue::Indirect { .. } => {
                            if let ty::Ref(_, inner, _) = ty.kind() {
                                if inner.is_str() || matches!(inner.kind(), ty::Slice(_)) {
                                    if let Some(b) = cv.try_get_slice_bytes_for_diagnostics(tcx) {
                                        let _ = write!(e, ",\"str\":{}", esc(&String::from_utf8_lossy(b)));
                                    }
                                }
                            }
                        }
                        _ => {}
                    }
                }
            }
            e.push('}');
            v.push(e);
        }
        join(&v)
    }

    fn impls_json(&self) -> String {
        let tcx = self.tcx;
        let mut v: Vec<String> = Vec::new();
        for id in tcx.hir_free_items() {
            let did = id.owner_id.to_def_id();
            if !matches!(tcx.def_kind(did), DefKind::Impl { .. }) {
                continue;
            }
            let st = tcx.type_of(did).instantiate_identity().skip_norm_wip();
            let tr = if tcx.impl_opt_trait_ref(did).is_some() {
                let tr = tcx.impl_trait_ref(did).instantiate_identity().skip_norm_wip();
                Some(tr)
            } else {
                None
            };
            let mut items: Vec<String> = Vec::new();
            for ai in tcx.associated_items(did).in_definition_order() {
                if !matches!(ai.kind, ty::AssocKind::Fn { .. }) {
                    continue;
                }
                let ti = ai.trait_item_def_id().map(|t| self.path(t));
                items.push(format!(
                    "{{\"name\":{},\"def\":{},\"trait_item\":{}}}",
                    esc(&ai.name().to_string()),
                    esc(&self.path(ai.def_id)),
                    ti.map(|s| esc(&s)).unwrap_or("null".into())
                ));
            }
            v.push(format!(
                "{{\"self\":{},\"trait\":{},\"trait_full\":{},\"items\":[{}]}}",
                self.ty_json(st),
                tr.map(|t| esc(&self.path(t.def_id))).unwrap_or("null".into()),
                tr.map(|t| esc(&with_no_trimmed_paths!(format!("{}", t)))).unwrap_or("null".into()),
                join(&items)
            ));
        }
        join(&v)
    }
}

impl Callbacks for Facts {
    fn config(&mut self, config: &mut interface::Config) {
        config.override_queries = Some(|_sess: &rustc_session::Session, providers: &mut rustc_middle::util::Providers| {
            let _ = DEFAULT_MIR_BUILT.set(providers.queries.mir_built);
            providers.queries.mir_built = stash_mir_built;
        });
    }

    fn after_expansion<'tcx>(&mut self, _compiler: &interface::Compiler, tcx: TyCtxt<'tcx>) -> Compilation {
        let want = std::env::var("PEARL_FACTS_CRATE").unwrap_or_else(|_| "pearl".to_string());
        let name = tcx.crate_name(LOCAL_CRATE).to_string();
        let out_path = match std::env::var("PEARL_FACTS_OUT") {
            Ok(p) => p,
            Err(_) => return Compilation::Continue,
        };
        if name != want {
            return Compilation::Continue;
        }
        // only the lib target (not tests/bins of the same name)
        let cx = Cx { tcx };
        let nonce = std::env::var("PEARL_FACTS_NONCE").unwrap_or_default();
        let mut fns: Vec<String> = Vec::new();
        let mut n_cor = 0usize;
        // Pass 1: clone every built body before any other query can steal it.
        let mut bodies: Vec<(LocalDefId, mir::Body<'tcx>)> = Vec::new();
        let mut stolen: Vec<String> = Vec::new();
        for ldid in tcx.hir_body_owners() {
            let dk = tcx.def_kind(ldid.to_def_id());
            let ok = matches!(
                dk,
                DefKind::Fn | DefKind::AssocFn | DefKind::Closure | DefKind::SyntheticCoroutineBody
            );
            if !ok {
                continue;
            }
            let _ = tcx.mir_built(ldid);
            let body: Option<mir::Body<'tcx>> = STASH.with(|s| {
                s.borrow_mut().remove(&ldid).map(|b| unsafe { std::mem::transmute::<mir::Body<'static>, mir::Body<'tcx>>(b) })
            });
            let body = match body {
                Some(b) => b,
                None => {
                    eprintln!("pearl-facts: MISSING {}", cx.path(ldid.to_def_id()));
                    stolen.push(cx.path(ldid.to_def_id()));
                    continue;
                }
            };
            bodies.push((ldid, body));
        }
        for (ldid, body) in bodies.iter() {
            if body.coroutine.is_some() {
                n_cor += 1;
            }
            fns.push(cx.body_json(*ldid, body));
        }
        let mut out = String::new();
        let _ = write!(
            out,
            "{{\"nonce\":{},\"crate\":{},\"missing\":[{}],\"n_fns\":{},\"n_coroutines\":{},\"fns\":[\n{}\n],\n\"adts\":[{}],\n\"consts\":[{}],\n\"impls\":[{}]}}\n",
            esc(&nonce),
            esc(&name),
            stolen.iter().map(|x| esc(x)).collect::<Vec<_>>().join(","),
            fns.len(),
            n_cor,
            fns.join(",\n"),
            cx.adts_json(),
            cx.consts_json(),
            cx.impls_json()
        );
        let tmp = format!("{}.tmp.{}", out_path, std::process::id());
        std::fs::write(&tmp, out).expect("write facts");
        std::fs::rename(&tmp, &out_path).expect("rename facts");
        Compilation::Continue
    }
}

fn main() -> std::process::ExitCode {
    let mut args: Vec<String> = std::env::args().collect();
    // RUSTC_WORKSPACE_WRAPPER passes the real rustc path as argv[1]
    if args.len() > 1 && (args[1].ends_with("rustc") || args[1].contains("/rustc")) {
        args.remove(1);
    }
    let mut cb = Facts;
    rustc_driver::catch_with_exit_code(|| rustc_driver::run_compiler(&args, &mut cb))
}
